#!/bin/bash
# usage: run_suite.sh <worktree>   -- runs the pinned suite (command of /root/.vp/BASELINE.json) in a worktree and
# compares the passing tests with BASELINE.stable_pass; rc 0 iff every one of the 617 baseline tests passes.
WT=${1:-/repo}
export GOFLAGS=-mod=mod GOPROXY=off GOSUMDB=off GOTOOLCHAIN=local; unset GOWORK
cd "$WT" || exit 2
out=$(mktemp)
go test -json -vet=off -count=1 -timeout 25m ./... > "$out" 2>/dev/null
python3 - "$out" <<'PY'
import json,sys,ast
b=json.load(open('/root/.vp/BASELINE.json'))
sp=b['stable_pass']
if isinstance(sp,str): sp=ast.literal_eval(sp)
want=set(sp)
got=set()
for l in open(sys.argv[1]):
    try: e=json.loads(l)
    except Exception: continue
    if e.get('Action')=='pass' and e.get('Test'):
        got.add(e['Package']+'::'+e['Test'])
missing=sorted(want-got)
print("baseline tests: %d passing now: %d, rc=%d"%(len(want),len(want&got),1 if missing else 0))
for m in missing[:20]: print("  NOT PASSING:",m)
sys.exit(1 if missing else 0)
PY
rc=$?
rm -f "$out"
exit $rc
