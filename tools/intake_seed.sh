#!/bin/bash
# usage: intake_seed.sh <R7Cnn>  -- verifies /tmp/seeds/<R7Cnn>/{a,b} in the agent's worktree, stores the confirmed ones
# under /verif/seeded/<R7Cnn>{a,b} and runs the property's check against each.
R=$1; P=${R: -3}
for x in a b; do
  [ -f /tmp/seeds/$R/$x/patch.diff ] || { echo "$R$x: no patch"; continue; }
  /verif/tools/verify_seed.sh /tmp/seeds/$R/$x $R$x /tmp/wt/$R 2>&1 | tail -3
  if [ -d /verif/seeded/$R$x ]; then
    /verif/tools/try_seed.sh $R$x $P $( t=$(python3 -c "import json;print(json.load(open('/verif/seeded/$R$x/meta.json')).get('demo_build_tags','') or '')"); [ -n "$t" ] && [ "$t" != RACE ] && echo thorough || echo quick ) 2>&1 | cut -c1-400 | tail -6
  fi
done
