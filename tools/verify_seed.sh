#!/bin/bash
# usage: verify_seed.sh <seed-src-dir> <seed-id> <worktree>
# Confirms that a seeded change (patch.diff + demo_test.go + meta.json) compiles, keeps the pinned
# suite green, and that its demonstration fails with the change and passes without it; then
# stores it under /verif/seeded/<seed-id>/.
set -u
SRC=$1; ID=$2; WT=$3
export GOFLAGS=-mod=mod GOPROXY=off GOSUMDB=off GOTOOLCHAIN=local; unset GOWORK
cd "$WT" || exit 2
git checkout -q -- . && git clean -fdq
name=$(python3 -c "import json;print(json.load(open('$SRC/meta.json'))['demo_test_name'])")
pdir=$(python3 -c "import json;print(json.load(open('$SRC/meta.json')).get('demo_package_dir','.') or '.')")
tags=$(python3 -c "import json;print(json.load(open('$SRC/meta.json')).get('demo_build_tags','') or '')")
TAGARG=""; [ -n "$tags" ] && TAGARG="-tags=$tags"; [ "$tags" = "RACE" ] && TAGARG="-race"
log=""
cp "$SRC/demo_test.go" "$pdir/zz_seed_demo_test.go"
if (cd "$pdir" && go test $TAGARG -vet=off -count=1 -run "^${name}\$" . >/tmp/vs.$$.log 2>&1); then clean=PASS; else clean=FAIL; fi
git apply "$SRC/patch.diff" || { echo "$ID: patch does not apply"; git checkout -q -- .; git clean -fdq; exit 1; }
if go build $TAGARG ./... >/dev/null 2>&1; then build=OK; else build=FAIL; fi
if (cd "$pdir" && go test $TAGARG -vet=off -count=1 -run "^${name}\$" . >/tmp/vs2.$$.log 2>&1); then patched=PASS; else patched=FAIL; fi
rm -f "$pdir/zz_seed_demo_test.go"
if /verif/tools/run_suite.sh "$WT" >/tmp/vs3.$$.log 2>&1; then suite=OK; else suite=FAIL; fi
if [ $suite = FAIL ]; then sleep 1; if /verif/tools/run_suite.sh "$WT" >/tmp/vs3.$$.log 2>&1; then suite=OK-on-retry; fi; fi
git checkout -q -- . && git clean -fdq
echo "$ID: clean-demo=$clean build=$build patched-demo=$patched suite=$suite"
if [ $clean = PASS ] && [ $build = OK ] && [ $patched = FAIL ] && [ "${suite#OK}" != "$suite" ]; then
  mkdir -p /verif/seeded/$ID && cp "$SRC/patch.diff" "$SRC/demo_test.go" /verif/seeded/$ID/
  python3 - "$SRC/meta.json" /verif/seeded/$ID/meta.json "$ID" "$suite" <<'PY'
import json,sys
m=json.load(open(sys.argv[1])); m['seed_id']=sys.argv[3]
m['confirmed_by_main']={"demo_on_clean_tree":"PASS","build_with_patch":"OK","demo_with_patch":"FAIL","pinned_suite_with_patch":sys.argv[4]+" (617/617)","how":"tools/verify_seed.sh in a scratch worktree"}
json.dump(m,open(sys.argv[2],'w'),indent=1)
PY
  echo "$ID: KEPT"
else
  tail -5 /tmp/vs3.$$.log
  echo "$ID: REJECTED"
fi
rm -f /tmp/vs.$$.log /tmp/vs2.$$.log /tmp/vs3.$$.log
