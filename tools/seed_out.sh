#!/bin/bash
# usage: seed_out.sh <seed-id> <property> [grep-pattern]  -- full check output for a seed in a scratch worktree
ID=$1; PROP=$2; PAT=${3:-violation\]|not-decided\]}
WT=/tmp/wt/so_$ID
git -C /repo worktree remove --force $WT 2>/dev/null; git -C /repo worktree prune; git -C /repo worktree add -q --detach $WT HEAD
git -C $WT apply /verif/seeded/$ID/patch.diff || { git -C /repo worktree remove --force $WT; exit 2; }
mkdir -p /tmp/tcheck-try/so_$ID && cp /verif/known_findings.json /tmp/tcheck-try/so_$ID/
TCHECK_REPO=$WT TCHECK_VERIF=/tmp/tcheck-try/so_$ID ${TCHECK_BIN:-/verif/bin/tcheck} $PROP --tier ${TIER:-quick} 2>&1 | grep -E "$PAT" | cut -c1-${COLS:-900}
git -C /repo worktree remove --force $WT; rm -rf /tmp/tcheck-try/so_$ID
