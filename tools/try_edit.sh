#!/bin/bash
# usage: try_edit.sh <property> <file> <python-expr: old>>>new>   -- one-off mutant in a scratch worktree
PROP=$1; FILE=$2; OLD=$3; NEW=$4
WT=/tmp/wt/edit_$$
git -C /repo worktree add -q --detach $WT HEAD
python3 - "$WT/$FILE" "$OLD" "$NEW" <<'PY'
import sys
p,old,new=sys.argv[1:4]
s=open(p).read()
assert old in s, "pattern not found"
s=s.replace(old,new,1)
open(p,'w').write(s)
PY
(cd $WT && GOFLAGS=-mod=mod GOPROXY=off go build ./... 2>&1 | head -3)
mkdir -p /tmp/tcheck-try/e$$ && cp /verif/known_findings.json /tmp/tcheck-try/e$$/
TCHECK_REPO=$WT TCHECK_VERIF=/tmp/tcheck-try/e$$ /verif/bin/tcheck $PROP > /tmp/tcheck-try/e$$/out.txt 2>&1; rc=$?
grep -E "violation\]|undecided\]|UNDECIDED" /tmp/tcheck-try/e$$/out.txt | head -3 | cut -c1-260
echo "exit=$rc"
git -C /repo worktree remove --force $WT; rm -rf /tmp/tcheck-try/e$$
